------------------------- MODULE Trace_HybridClock -------------------------
(* Trace validation: events recorded from the real `HybridTimestamp::increment`,     *)
(* `UnsignedTransportInfo::{from_addrs, increment_timestamp, sign}` and              *)
(* `NodeInfo::update_transports` under mock_instant's clock (harness                 *)
(* `vh-mock hybridclock record`) must be behaviours of HybridClock, with the C18     *)
(* predicates evaluated at every step.                                               *)
EXTENDS HybridClock, TLC, Json, IOUtils

Rec == ndJsonDeserialize(IOEnv.TRACE)

VARIABLE i
tvars == <<own, obs, pub, accepted, i>>

Ev == Rec[i]

\* JSON side: timestamps are arrays [t, l] (1-based sequences = the spec's tuples)

StepReset ==
    /\ Ev.ev = "Reset"
    /\ own' = NoRec /\ obs' = NoRec /\ pub' = <<>> /\ accepted' = TRUE

\* one call of increment on an arbitrary timestamp (no chain state involved)
StepInc ==
    /\ Ev.ev = "Inc"
    /\ Ev.out = Increment(Ev.ts, Ev.wall)          \* impl = transcription
    /\ Less(Ev.ts, Ev.out)                         \* C18 on the impl's answer
    /\ UNCHANGED <<own, obs, pub, accepted>>

StepPublishFirst ==
    /\ Ev.ev = "PublishFirst"
    /\ PublishFirst(Ev.w1, Ev.addr)
    /\ own'.ts = Ev.ts /\ accepted' = Ev.accepted

StepPublishNext ==
    /\ Ev.ev = "PublishNext"
    /\ PublishNext(Ev.w1, Ev.w2, Ev.addr)
    /\ pub'[Len(pub')].ts = Ev.ts                  \* the record the implementation built
    /\ accepted' = Ev.accepted                     \* update_transports' verdict on the own book
    /\ own'.ts = Ev.own                            \* own book entry after the insert

StepPublishUnchanged ==
    /\ Ev.ev = "PublishUnchanged"
    /\ PublishUnchanged(Ev.w1, Ev.w2, Ev.addr)

StepDeliver ==
    /\ Ev.ev = "Deliver"
    /\ Deliver(Ev.k)
    /\ obs'.ts = Ev.obs
    /\ Ev.newer = UpdateTransports(obs, pub[Ev.k])[2]

TraceInit == ChainInit /\ i = 1
TraceNext ==
    /\ i <= Len(Rec)
    /\ i' = i + 1
    /\ (StepReset \/ StepInc \/ StepPublishFirst \/ StepPublishNext \/ StepPublishUnchanged \/ StepDeliver)
TraceSpec == TraceInit /\ [][TraceNext]_tvars

C18_AcceptedAsNewer == AcceptedAsNewer
C18_ChainStrictlyIncreasing == ChainStrictlyIncreasing
C18_OwnHoldsLatest == OwnHoldsLatest
C18_ObserverNeverStuckOnOlder == ObserverNeverStuckOnOlder

TraceAccepted ==
    LET d == TLCGet("stats").diameter IN
    IF d - 1 = Len(Rec) THEN TRUE
    ELSE Print(<<"TRACE_REJECTED", d - 1, Len(Rec), ToJson(Rec[d])>>, FALSE)
===========================================================================
