SPECIFICATION ChainMCSpec
CONSTANTS
  Wall = {0, 1, 2}
  Addr = {"x", "y"}
  AsCoded = FALSE
  MaxT = 1
  MaxL = 0
  MaxPub = 4
  W1 = {2}
  MaxSteps = 4
INVARIANTS
  ExportChain
CHECK_DEADLOCK FALSE
