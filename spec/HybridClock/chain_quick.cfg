SPECIFICATION ChainMCSpec
CONSTANTS
  Wall = {0, 1, 2, 3}
  Addr = {"x", "y"}
  AsCoded = FALSE
  MaxT = 1
  MaxL = 0
  MaxPub = 5
  W1 = {0, 3}
  MaxSteps = 1000
INVARIANTS
  C18_AcceptedAsNewer
  C18_ChainStrictlyIncreasing
  C18_OwnHoldsLatest
  C18_ObserverNeverStuckOnOlder
VIEW NoHistView
CHECK_DEADLOCK FALSE
