-------------------------- MODULE MC_HybridClock --------------------------
(* Bounded instances of HybridClock for TLC + JSON export of every case.   *)
EXTENDS HybridClock, TLC, Json

CONSTANTS
    MaxT, MaxL,     \* machine 1: input timestamps (0..MaxT) x (0..MaxL), wall readings 0..MaxT
    MaxPub,         \* machine 2: records published at most
    W1,             \* machine 2: values of the clock reading that `increment_timestamp` overwrites
                    \* (Wall in the exhaustive configs; one value in the export configs, where it would
                    \* only multiply the behaviours - random values of it are in the recorded traces)
    MaxSteps        \* machine 2: steps per exported behaviour

VARIABLES
    fts, fwall,     \* machine 1: the (ts, wall) pair handed to Increment
    n, hist         \* machine 2: step counter and history (hidden by VIEW in the exhaustive config)

mcvars == <<own, obs, pub, accepted, fts, fwall, n, hist>>

---------------------------------------------------------------------------
(* Machine 1: every (timestamp, wall-clock reading) pair, one initial state each *)

IncInit ==
    /\ fts \in (0..MaxT) \X (0..MaxL)
    /\ fwall \in 0..MaxT
    /\ ChainInit /\ n = 0 /\ hist = <<>>
IncNext == FALSE /\ UNCHANGED mcvars
IncSpec == IncInit /\ [][IncNext]_mcvars

C18_StrictlyIncreases == StrictlyIncreases(fts, fwall)

\* vacuity guards: the three clock cases are all among the initial states
\* (used negated as invariants in a separate "reach" run is overkill here: the initial states are
\* the full product, so earlier / equal / later all occur as soon as MaxT >= 1)
ASSUME MaxT >= 1

ExportInc ==
    PrintT(<<"REPLAY", ToJson([kind |-> "inc", ts |-> fts, wall |-> fwall,
                               out |-> Increment(fts, fwall)])>>)

---------------------------------------------------------------------------
(* Machine 2: chains of self-published transport records                    *)

ChainMCInit == ChainInit /\ fts = <<0, 0>> /\ fwall = 0 /\ n = 0 /\ hist = <<>>

Step(h) == /\ n' = n + 1 /\ hist' = Append(hist, h) /\ UNCHANGED <<fts, fwall>>

MCPublishFirst ==
    /\ n < MaxSteps        \* (a leading state-level conjunct also keeps TLC's coverage line in the plain format bin/check parses)
    /\ \E w1 \in Wall, a \in Addr :
        /\ Len(pub) < MaxPub
        /\ PublishFirst(w1, a)
        /\ Step([ev |-> "PublishFirst", w1 |-> w1, w2 |-> w1, addr |-> a,
                 ts |-> Now(w1), accepted |-> TRUE])

MCPublishNext ==
    /\ n < MaxSteps        \* (a leading state-level conjunct also keeps TLC's coverage line in the plain format bin/check parses)
    /\ \E w1 \in W1, w2 \in Wall, a \in Addr :
        /\ Len(pub) < MaxPub
        /\ PublishNext(w1, w2, a)
        /\ Step([ev |-> "PublishNext", w1 |-> w1, w2 |-> w2, addr |-> a,
                 ts |-> Increment(own.ts, w2),
                 accepted |-> UpdateTransports(own, [ts |-> Increment(own.ts, w2), addr |-> a])[2]])

MCPublishUnchanged ==
    /\ n < MaxSteps        \* (a leading state-level conjunct also keeps TLC's coverage line in the plain format bin/check parses)
    /\ \E w1 \in W1, w2 \in Wall, a \in Addr :
        /\ PublishUnchanged(w1, w2, a)
        /\ Step([ev |-> "PublishUnchanged", w1 |-> w1, w2 |-> w2, addr |-> a,
                 ts |-> own.ts, accepted |-> TRUE])

MCDeliver ==
    /\ n < MaxSteps        \* (a leading state-level conjunct also keeps TLC's coverage line in the plain format bin/check parses)
    /\ \E k \in DOMAIN pub :
        /\ Deliver(k)
        /\ Step([ev |-> "Deliver", k |-> k, newer |-> UpdateTransports(obs, pub[k])[2],
                 obs |-> UpdateTransports(obs, pub[k])[1].ts])

ChainMCNext == MCPublishFirst \/ MCPublishNext \/ MCPublishUnchanged \/ MCDeliver
ChainMCSpec == ChainMCInit /\ [][ChainMCNext]_mcvars

C18_AcceptedAsNewer == AcceptedAsNewer
C18_ChainStrictlyIncreasing == ChainStrictlyIncreasing
C18_OwnHoldsLatest == OwnHoldsLatest
C18_ObserverNeverStuckOnOlder == ObserverNeverStuckOnOlder

\* branch-reached guards (checked through the per-action coverage of the four MC actions) plus:
\* the wall clock really went backwards / stood still / advanced in some explored publish
NoHistView == <<own, obs, pub, accepted>>

ExportChain ==
    n = MaxSteps => PrintT(<<"REPLAY", ToJson([kind |-> "chain", steps |-> hist])>>)
===========================================================================
