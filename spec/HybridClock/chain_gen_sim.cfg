SPECIFICATION ChainMCSpec
CONSTANTS
  Wall = {0, 1, 2, 3, 4}
  Addr = {"x", "y"}
  AsCoded = FALSE
  MaxT = 1
  MaxL = 0
  MaxPub = 8
  W1 = {2}
  MaxSteps = 12
INVARIANTS
  ExportChain
CHECK_DEADLOCK FALSE
